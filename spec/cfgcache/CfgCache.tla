------------------------------ MODULE CfgCache ------------------------------
(* Accessory database / configuration number / cache coherence of ONE pairing (extension EXTCFG).

   Code modelled (one action per run of the code between two suspension points, the loop being run until
   nothing is ready - the points at which the harness looks):
     controller/abstract.py   AbstractPairing.__init__ -> _load_accessories_from_cache; config_num / accessories;
                              _async_description_update (c# ABOVE the held one -> _process_config_changed task,
                              lower / equal -> nothing); restore_accessories_state; _update_accessories_state_cache;
                              _callback_and_save_config_changed; _callback_availability_changed; _callback_listeners;
                              dispatcher_connect_config_changed / dispatcher_availability_changed / dispatcher_connect
                              with their stop_listening closures
     controller/ip/pairing.py _process_config_changed(c) = list_accessories_and_characteristics (wait <= 10 s for the
                              connection, availability listeners, GET /accessories, state := (database, held number),
                              cache written) ; state := (database, c) ; listeners ; cache written;
                              async_populate_accessories_state; _async_description_update -> reconnect_soon;
                              connection_made -> _callback_listeners({})
     zeroconf.py              ZeroconfPairing._async_description_update
     characteristic_cache.py  get_map / async_create_or_update_map (memory and file flavour)
   CoAPPairing._process_config_changed / list_accessories_and_characteristics are the same algorithm (its
   _ensure_connected calls the availability listeners once per connection, from the call that connects).  BlePairing
   differs (every operation compares the held number with the advertised one): module BleCfg.

   The accessory is honest: its c# is its database version, bumped with every change, never decreasing (HAP 6.4).
   What the controller is shown (Desc) is any c# the accessory has had so far - records may be repeated and, unless
   MonotoneDesc, arrive out of order.  The connection is the environment's: it comes up, is lost (every request on
   it fails), or stays away longer than the 10 s a call waits for it (Tick).  Requests on one connection are
   strictly FIFO (C08); the accessory answers the head with its database AS OF THE REPLY (Reply), the reply
   arrives later (Deliver).

   Values: database versions 1..MaxV; pcfg = -1 / pacc = 0: the pairing holds no accessories state.  A cache
   entry is [c, a] (config_num, database version).  `out` = the externally visible effects of the last step, as
   <<kind, x, y, n>> (n = how often):
     "cfgtask",c     _process_config_changed(c) was started      "cfgend",c,ok   ... ended (ok = 0: with an exception)
     "req"           GET /accessories handed to the connection   "rsoon"         connection.reconnect_soon()
     "notify",i,c    config-changed listener i called with c     "nview",i,View  (config_num, database) of the pairing
                                                                                 as listener i saw it when called
     "avail",i,1     availability listener i called with True    "event",i       listener i called with {} (reconnect)
     "ret_list",ok / "ret_pop",ok   the application's call returned (1) / raised (0)
     "saved"         the cache entry was written

   Documented behaviour that is NOT claimed as a property: in the tree every description with a c# above the HELD number
   starts its own task, also while a task for the same number is in flight (k descriptions during one re-read = k
   re-reads and k notifications of every listener, see DupFetchPossible; the module allows it and allows not doing it); a failed re-read is retried only when the next
   description arrives (stale); without MonotoneDesc a late lower description can re-label newer data with the
   lower number (data is never rolled back).

   Configurations: CfgCache_MC (coherence, descriptions in any order), _MCm (in order), _MCl (listener registries), _MCt /
   _MCt2 (thorough), _cov (vacuity guard), _neg / _neg2 (deviation, must be refuted), _dup (witness of the duplicate
   re-read), _sim (-simulate, SimSpec), CfgCache_Trace (trace validation, intended / _dev with the deviation).

   Deviations (constant): "live_iter" = the tree as it is: _callback_and_save_config_changed and
   _callback_availability_changed iterate the live listener set, so a listener that unregisters itself from inside
   its callback (stop_listening) makes the iteration raise RuntimeError: the listeners not yet called are skipped,
   the cache is not written with the new number (config-changed), the waiting call fails (availability).  The
   module with Deviations = {} describes the REPAIRED code (proposed_fixes/EXTCFG-1). *)
EXTENDS Integers, Sequences, FiniteSets, TLC

CONSTANTS Flavour,       \* "ip" (IpPairing) | "coap" (CoAPPairing: same algorithm, its own _ensure_connected, see LinkUp)
          MaxV,          \* database versions 1..MaxV
          InitVers,      \* versions the accessory may have at the start
          InitCaches,    \* initial cache entries: 0 = none, 10 * config_num + version (config_num 0: legacy entry)
          MaxGen,        \* pairing objects created (1 + restarts)
          MaxTasks,      \* bound on calls / tasks in flight
          Listeners,     \* listener ids
          OneShot,       \* the listeners that unregister themselves from inside their callback
          Regs,          \* registries used: subset of {"cfg", "avail", "ev"}
          ReplyKinds,    \* subset of {"ok", "garbage"}
          UserOps,       \* subset of {"list", "pop0", "pop1", "restore"}
          MonotoneDesc,  \* TRUE: descriptions arrive in order
          Deviations     \* subset of {"live_iter"}

VARIABLES accv,    \* the accessory's database version (= its c#)
          gen,     \* number of the current pairing object
          up,      \* the connection is established
          pdesc,   \* c# of pairing.description (0: none)
          pcfg,    \* pairing.config_num
          pacc,    \* database version of pairing.accessories
          cache,   \* <<>> or <<[c, a]>>
          w,       \* calls waiting for the connection (in _ensure_connected), in order of arrival
          q,       \* calls whose GET /accessories is on the connection, FIFO; r: 0 = not answered yet,
                   \* v = answered with database v (reply under way), -1 = answered with something else
          lst,     \* registered listeners per registry
          stale,   \* a config-change task failed and nothing has repaired that since
          out
vars == <<accv, gen, up, pdesc, pcfg, pacc, cache, w, q, lst, stale, out>>

None == <<>>
Some(x) == <<x>>
O(k, x, y, n) == <<k, x, y, n>>
If(c, S) == IF c THEN S ELSE {}
View(c, a) == 10 * (c + 1) + a
AllRegs == {"cfg", "avail", "ev"}
Task(k, c) == [k |-> k, c |-> c, r |-> 0]
HasCfg(s) == \E i \in 1..Len(s) : s[i].k = "cfg"
NumCfg == Cardinality({i \in 1..Len(w) : w[i].k = "cfg"}) + Cardinality({i \in 1..Len(q) : q[i].k = "cfg"})
InFlight == Len(w) + Len(q)

\* the calls / tasks ts end, all with result ok
Ends(ts, ok) ==
    LET N(k) == Cardinality({i \in 1..Len(ts) : ts[i].k = k})
        cs   == {ts[i].c : i \in {j \in 1..Len(ts) : ts[j].k = "cfg"}}
    IN If(N("list") > 0, {O("ret_list", ok, 0, N("list"))}) \cup If(N("pop") > 0, {O("ret_pop", ok, 0, N("pop"))})
       \cup {O("cfgend", c, ok, Cardinality({i \in 1..Len(ts) : ts[i].k = "cfg" /\ ts[i].c = c})) : c \in cs}

\* one round of callbacks over the listeners L of registry reg: who is called, who is registered afterwards,
\* did the round raise
Deliveries(L, reg) ==
    IF "live_iter" \in Deviations /\ reg # "ev" /\ L \cap OneShot # {}
    THEN {[called |-> S \cup {o}, left |-> L \ {o}, raised |-> TRUE] : o \in L \cap OneShot, S \in SUBSET (L \ OneShot)}
    ELSE {[called |-> L, left |-> L \ OneShot, raised |-> FALSE]}

\* the waiting calls ws proceed one after the other once the connection is there: each runs the availability
\* listeners, then hands its request to the connection
RECURSIVE Rel(_, _)
Rel(ws, A) ==
    IF ws = <<>> THEN {[sent |-> <<>>, A |-> A, n |-> [i \in Listeners |-> 0], failed |-> <<>>]}
    ELSE UNION {{[sent   |-> IF d.raised THEN r.sent ELSE <<Head(ws)>> \o r.sent,
                  A      |-> r.A,
                  n      |-> [i \in Listeners |-> r.n[i] + IF i \in d.called THEN 1 ELSE 0],
                  failed |-> IF d.raised THEN <<Head(ws)>> \o r.failed ELSE r.failed] : r \in Rel(Tail(ws), d.left)}
                : d \in Deliveries(A, "avail")}

\* ------------------------------------------------------------------ the accessory and the network
DbChange ==
    /\ accv < MaxV
    /\ accv' = accv + 1 /\ out' = {}
    /\ UNCHANGED <<gen, up, pdesc, pcfg, pacc, cache, w, q, lst, stale>>

\* a call starts: straight to the connection if there is one, else it waits for it (CoAP: the first one to wait
\* starts the connect - "connect" - and is the one the others wait for)
Start(t, o) ==
    /\ InFlight < MaxTasks
    /\ IF up THEN q' = Append(q, t) /\ w' = w /\ out' = o \cup {O("req", 0, 0, 1)}
             ELSE w' = Append(w, t) /\ q' = q /\ out' = o \cup If(Flavour = "coap" /\ w = <<>>, {O("connect", 0, 0, 1)})

\* pairing._async_description_update(description with c# c): a number ABOVE the held one starts a config-change task.
\* (The tree starts one for every such description; a task for the same or a higher number being in flight
\* already, not starting another one would do as well - the module leaves that open.)  IpPairing then hastens a
\* reconnect that may be in progress (reconnect_soon; required only while there is no connection).
Covered(c) == \E s \in {w, q} : \E i \in 1..Len(s) : s[i].k = "cfg" /\ s[i].c >= c
Spawns(c) == IF c <= pcfg THEN {FALSE} ELSE IF Covered(c) THEN {TRUE, FALSE} ELSE {TRUE}
\* CoAPPairing calls reconnect_soon when the endpoint changed; the harness keeps the endpoint, so: with the first
\* description a pairing object is shown
RSoon == IF Flavour = "coap" THEN (IF pdesc = 0 THEN {{O("rsoon", 0, 0, 1)}} ELSE {{}})
         ELSE IF up THEN {{}, {O("rsoon", 0, 0, 1)}} ELSE {{O("rsoon", 0, 0, 1)}}
Desc(c) ==
    /\ c \in 1..accv
    /\ MonotoneDesc => c >= pdesc
    /\ pdesc' = c /\ stale' = FALSE
    /\ \E spawn \in Spawns(c), rs \in RSoon :
         IF spawn
         THEN Start(Task("cfg", c), rs \cup {O("cfgtask", c, 0, 1)})
         ELSE out' = rs /\ UNCHANGED <<w, q>>
    /\ UNCHANGED <<accv, gen, up, pcfg, pacc, cache, lst>>

\* CoAP: the call that started the connect (the head of w) alone runs the availability listeners; then all proceed
RelC(ws, A) ==
    IF ws = <<>> THEN {[sent |-> <<>>, A |-> A, n |-> [i \in Listeners |-> 0], failed |-> <<>>]}
    ELSE {[sent   |-> (IF d.raised THEN <<>> ELSE <<Head(ws)>>) \o Tail(ws),
           A      |-> d.left,
           n      |-> [i \in Listeners |-> IF i \in d.called THEN 1 ELSE 0],
           failed |-> IF d.raised THEN <<Head(ws)>> ELSE <<>>] : d \in Deliveries(A, "avail")}

\* the connection is established.  IP: connection_made tells the listeners ({}), then the waiting calls proceed, each
\* running the availability listeners.  CoAP: a connection only comes from the connect a waiting call started
LinkUp ==
    /\ ~up /\ up' = TRUE
    /\ Flavour = "coap" => w # <<>>
    /\ \E r \in (IF Flavour = "coap" THEN RelC(w, lst["avail"]) ELSE Rel(w, lst["avail"])) :
         /\ q' = q \o r.sent /\ w' = <<>>
         /\ lst' = [lst EXCEPT !["ev"] = IF Flavour = "coap" THEN @ ELSE @ \ OneShot, !["avail"] = r.A]
         /\ stale' = (stale \/ HasCfg(r.failed))
         /\ out' = If(Flavour # "coap", {O("event", i, 0, 1) : i \in lst["ev"]})
                   \cup {O("avail", i, 1, r.n[i]) : i \in {j \in Listeners : r.n[j] > 0}}
                   \cup If(r.sent # <<>>, {O("req", 0, 0, Len(r.sent))})
                   \cup Ends(r.failed, 0)
    /\ UNCHANGED <<accv, gen, pdesc, pcfg, pacc, cache>>

\* the connection is lost: every request on it fails
LinkDown ==
    /\ up /\ up' = FALSE
    /\ q' = <<>> /\ out' = Ends(q, 0) /\ stale' = (stale \/ HasCfg(q))
    /\ UNCHANGED <<accv, gen, pdesc, pcfg, pacc, cache, w, lst>>

\* IP: more than the 10 s a call waits for the connection pass; CoAP: the connect fails - every waiting call fails
Tick ==
    /\ w # <<>>
    /\ w' = <<>> /\ out' = Ends(w, 0) /\ stale' = (stale \/ HasCfg(w))
    /\ UNCHANGED <<accv, gen, up, pdesc, pcfg, pacc, cache, q, lst>>

\* the accessory answers the request it is looking at: with its database as of now, or with something else
Reply(kind) ==
    /\ q # <<>> /\ q[1].r = 0
    /\ q' = [q EXCEPT ![1].r = IF kind = "ok" THEN accv ELSE -1]
    /\ out' = {}
    /\ UNCHANGED <<accv, gen, up, pdesc, pcfg, pacc, cache, w, lst, stale>>

\* the number a database is filed under when it is re-read outside a config-change task: the one held; a pairing
\* that held nothing files it under "none" (the tree: -1, from `self.config_num or 0`; 0 would do as well)
Held == IF pcfg = -1 THEN {-1, 0} ELSE {pcfg}
\* the reply arrives
Deliver ==
    /\ q # <<>> /\ q[1].r # 0
    /\ LET h == q[1] IN
       /\ q' = Tail(q)
       /\ IF h.r = -1
          THEN \* not an accessory database: the call fails, nothing is touched
               /\ out' = Ends(<<h>>, 0) /\ stale' = (stale \/ h.k = "cfg")
               /\ UNCHANGED <<pcfg, pacc, cache, lst>>
          ELSE IF h.k # "cfg"
          THEN \* list_accessories_and_characteristics: the database under the number held, written through
               \E n \in Held :
               /\ pacc' = h.r /\ pcfg' = n /\ cache' = Some([c |-> n, a |-> h.r])
               /\ out' = Ends(<<h>>, 1) \cup {O("saved", 0, 0, 1)}
               /\ UNCHANGED <<lst, stale>>
          ELSE \* _process_config_changed(h.c): the same, then the number that started the task, the listeners
               \* (who see the new state), the cache once more
               \E d \in Deliveries(lst["cfg"], "cfg"), n \in Held :
               /\ pacc' = h.r /\ pcfg' = h.c
               /\ cache' = Some([c |-> IF d.raised THEN n ELSE h.c, a |-> h.r])
               /\ lst' = [lst EXCEPT !["cfg"] = d.left]
               /\ out' = {O("notify", i, h.c, 1) : i \in d.called} \cup {O("nview", i, View(h.c, h.r), 1) : i \in d.called}
                         \cup {O("saved", 0, 0, 1), O("cfgend", h.c, IF d.raised THEN 0 ELSE 1, 1)}
               /\ stale' = IF h.c >= pdesc THEN FALSE ELSE stale
    /\ UNCHANGED <<accv, gen, up, pdesc, w>>

\* ------------------------------------------------------------------ the application
UserList ==
    /\ "list" \in UserOps
    /\ Start(Task("list", 0), {})
    /\ UNCHANGED <<accv, gen, up, pdesc, pcfg, pacc, cache, lst, stale>>

\* async_populate_accessories_state(force_update): a pairing that holds accessories does not go to the network
UserPop(force) ==
    /\ (IF force THEN "pop1" ELSE "pop0") \in UserOps
    /\ IF pacc # 0 /\ ~force
       THEN out' = {O("ret_pop", 1, 0, 1)} /\ UNCHANGED <<w, q>>
       ELSE Start(Task("pop", 0), {})
    /\ UNCHANGED <<accv, gen, up, pdesc, pcfg, pacc, cache, lst, stale>>

\* restore_accessories_state(database v, config_num v, ...) with a state the application kept itself (Home
\* Assistant at start-up).  Not considered: restoring something older than what the pairing holds or has been
\* shown, or while a re-read is in flight (its result would overwrite what was restored: a config-change
\* task the number, any re-read the database - with one fetched BEFORE, i.e. possibly older than the restored label).
UserRestore(v) ==
    /\ "restore" \in UserOps
    /\ v \in 1..accv /\ v >= pdesc /\ v >= pcfg /\ v >= pacc /\ InFlight = 0
    /\ pcfg' = v /\ pacc' = v /\ cache' = Some([c |-> v, a |-> v]) /\ stale' = FALSE
    /\ out' = {O("saved", 0, 0, 1)}
    /\ UNCHANGED <<accv, gen, up, pdesc, w, q, lst>>

Register(reg, i) ==
    /\ reg \in Regs /\ i \notin lst[reg]
    /\ lst' = [lst EXCEPT ![reg] = @ \cup {i}] /\ out' = {}
    /\ UNCHANGED <<accv, gen, up, pdesc, pcfg, pacc, cache, w, q, stale>>
\* the stop_listening closure returned at registration
Unregister(reg, i) ==
    /\ reg \in Regs /\ i \in lst[reg]
    /\ lst' = [lst EXCEPT ![reg] = @ \ {i}] /\ out' = {}
    /\ UNCHANGED <<accv, gen, up, pdesc, pcfg, pacc, cache, w, q, stale>>

\* the process ends (whatever was in flight is gone) and a new pairing object is created over the same cache
Restart ==
    /\ gen < MaxGen
    /\ gen' = gen + 1 /\ up' = FALSE /\ w' = <<>> /\ q' = <<>> /\ pdesc' = 0 /\ stale' = FALSE
    /\ lst' = [r \in AllRegs |-> {}]
    /\ pcfg' = IF cache = None THEN -1 ELSE cache[1].c
    /\ pacc' = IF cache = None THEN 0 ELSE cache[1].a
    /\ out' = {}
    /\ UNCHANGED <<accv, cache>>

\* ------------------------------------------------------------------ behaviours
Init == /\ accv \in InitVers /\ gen = 1 /\ up = FALSE /\ pdesc = 0 /\ w = <<>> /\ q = <<>> /\ stale = FALSE
        /\ lst = [r \in AllRegs |-> {}]
        /\ \E x \in InitCaches : cache = IF x = 0 THEN None ELSE Some([c |-> x \div 10, a |-> x % 10])
        /\ cache # None => (cache[1].a <= accv /\ cache[1].c <= cache[1].a)      \* what was cached was once true
        /\ pcfg = IF cache = None THEN -1 ELSE cache[1].c
        /\ pacc = IF cache = None THEN 0 ELSE cache[1].a
        /\ out = {}

Next == \/ DbChange \/ LinkUp \/ LinkDown \/ Tick \/ Deliver \/ Restart
        \/ \E c \in 1..MaxV : Desc(c)
        \/ \E k \in ReplyKinds : Reply(k)
        \/ UserList \/ \E f \in BOOLEAN : UserPop(f)
        \/ \E v \in 1..MaxV : UserRestore(v)
        \/ \E r \in Regs, i \in Listeners : Register(r, i) \/ Unregister(r, i)
Spec == Init /\ [][Next]_vars

\* for -simulate: one random parameter per step, otherwise (un)registrations crowd out everything else (the harness
\* reads the parameters off the successor state, not off the action name)
SimDesc == \E c \in {RandomElement(1..accv)} : Desc(c)
SimDescCur == Desc(accv)
SimReply == \E k \in {RandomElement(ReplyKinds)} : Reply(k)
SimReplyOk == Reply("ok")
SimPop == \E f \in {RandomElement(BOOLEAN)} : UserPop(f)
SimRestore == \E v \in {RandomElement(1..accv)} : UserRestore(v)
SimReg == \E r \in {RandomElement(Regs)}, i \in {RandomElement(Listeners)} : Register(r, i) \/ Unregister(r, i)
SimNext == \/ DbChange \/ LinkUp \/ LinkDown \/ Tick \/ Deliver \/ Restart
           \/ SimDesc \/ SimDescCur \/ SimReply \/ SimReplyOk \/ UserList \/ SimPop \/ SimRestore \/ SimReg
SimSpec == Init /\ [][SimNext]_vars

\* ------------------------------------------------------------------ properties
Entries == {None} \cup {Some([c |-> c, a |-> a]) : c \in -1..MaxV, a \in 1..MaxV}
TypeOK == /\ accv \in 1..MaxV /\ gen \in 1..MaxGen /\ up \in BOOLEAN /\ pdesc \in 0..MaxV
          /\ pcfg \in -1..MaxV /\ pacc \in 0..MaxV /\ cache \in Entries
          /\ \A i \in 1..Len(w) : w[i].k \in {"cfg", "list", "pop"} /\ w[i].r = 0
          /\ \A i \in 1..Len(q) : q[i].k \in {"cfg", "list", "pop"} /\ q[i].r \in -1..MaxV /\ (i > 1 => q[i].r = 0)
          /\ InFlight <= MaxTasks
          /\ (up => w = <<>>) /\ (~up => q = <<>>)
          /\ DOMAIN lst = AllRegs /\ \A r \in AllRegs : lst[r] \subseteq Listeners
          /\ pdesc <= accv /\ pcfg <= accv /\ pacc <= accv            \* nothing the pairing holds is from the future

\* P1  data filed under configuration number c is at least as new as c, in the pairing and in the cache: no stale
\*     database is ever kept under a newer number
LabelNeverNewerThanData == /\ pacc # 0 => pacc >= pcfg
                           /\ cache # None => cache[1].a >= cache[1].c
\* P2  write-through: the cache entry is exactly what the pairing holds (a restart loses nothing)
WriteThrough == cache = IF pacc = 0 THEN None ELSE Some([c |-> pcfg, a |-> pacc])
\* P3  when nothing is in flight the pairing has caught up with the description it was shown (unless the re-read
\*     failed and nothing has been heard since; descriptions in order) ...
Settled == ~stale /\ NumCfg = 0
CaughtUp == (MonotoneDesc /\ Settled /\ pdesc # 0) => pcfg >= pdesc
\*     ... so once it has been shown the accessory's final number it holds the final database (in whatever order
\*     the descriptions came), under that number, in memory and in the cache
SeenFinalHoldsFinal == (Settled /\ pdesc = accv)
                          => /\ pacc = accv
                             /\ MonotoneDesc => (pcfg = accv /\ cache = Some([c |-> accv, a |-> accv]))
\* P4  listeners are told the number the pairing now holds, and see the new state when they are called
NotifyCurrent == \A o \in out : /\ o[1] = "notify" => (o[3] = pcfg /\ o[4] = 1)
                                /\ o[1] = "nview" => (o[3] = View(pcfg, pacc) /\ o[4] = 1)
\*     ... exactly the listeners registered at that moment, each once; a round of callbacks never raises
NotifyExactlyRegistered ==
    [][(\E o \in out' : o[1] = "notify") => {o[2] : o \in {x \in out' : x[1] = "notify"}} = lst["cfg"]]_vars
\* a call or task that ends with an exception has not touched the pairing or the cache, and no waiting call
\* fails in the step in which the connection it waited for arrives
FailsCleanly == [][(\E o \in out' : (o[1] = "cfgend" /\ o[3] = 0) \/ (o[1] \in {"ret_list", "ret_pop"} /\ o[2] = 0))
                      => (pcfg' = pcfg /\ pacc' = pacc /\ cache' = cache)]_vars
NoFailure(o) == /\ o[1] = "cfgend" => o[3] = 1
                /\ o[1] \in {"ret_list", "ret_pop"} => o[2] = 1
ConnectedCallProceeds == [][(~up /\ up') => (\A o \in out' : NoFailure(o))]_vars
\* P5  only a description with a number ABOVE the held one starts a re-read ...
OnlyHigherSpawns == [][NumCfg' > NumCfg => (pdesc' > pcfg /\ NumCfg' = NumCfg + 1)]_vars
\*     ... and nothing ever rolls the database back; with descriptions in order, the number neither
NoDataRollback == [][gen' = gen => pacc' >= pacc]_vars
NoLabelRollback == [][(gen' = gen /\ MonotoneDesc) => pcfg' >= pcfg]_vars
\* P6  a restart restores exactly what was saved last and sends nothing
RestartRestores == [][gen' # gen => (cache' = cache /\ WriteThrough' /\ out' = {} /\ q' = <<>> /\ w' = <<>>)]_vars
\* P7  a listener whose stop_listening was called (or that unregistered itself) is never called again: whoever is
\*     called was registered before the step
OnlyRegisteredCalled ==
    [][gen' = gen => /\ \A o \in out' : o[1] = "notify" => o[2] \in lst["cfg"]
                     /\ \A o \in out' : o[1] = "avail" => o[2] \in lst["avail"]
                     /\ \A o \in out' : o[1] = "event" => o[2] \in lst["ev"]]_vars
OneShotOnce == \A o \in out : (o[1] \in {"notify", "avail", "event"} /\ o[2] \in OneShot) => o[4] = 1

\* documented, not a property: TLC finds two re-reads in flight for the same number
DupFetchPossible == ~(\E i, j \in 1..Len(q) : i # j /\ q[i].k = "cfg" /\ q[j].k = "cfg" /\ q[i].c = q[j].c)
=============================================================================
