#!/bin/sh
# Offline setup: syntax-check every specification with SANY and make sure the harness imports.
set -e
cd "$(dirname "$0")"
fail=0
jt=$(mktemp -d)   # SANY/TLC unpack their standard modules under java.io.tmpdir on every start
trap 'rm -rf "$jt"' EXIT
for f in $(find spec -name '*.tla' ! -name 'MC_*Ind.tla' | sort); do
  out=$(cd "$(dirname "$f")" && java -Djava.io.tmpdir="$jt" -cp /opt/veriftools/tla/tla2tools.jar:/opt/veriftools/tla/CommunityModules-deps.jar tla2sany.SANY "$(basename "$f")" 2>&1) || true
  if echo "$out" | grep -q -E "Fatal errors|\*\*\* Errors|Parse Error|Could not find module"; then
    echo "SANY FAILED: $f"; echo "$out" | tail -20; fail=1
  fi
done
# Apalache-only wrapper modules are type-checked by Apalache (when present)
if command -v apalache-mc >/dev/null 2>&1; then
  for f in $(find spec -name 'MC_*Ind.tla' | sort); do
    d=$(mktemp -d)
    (cd "$(dirname "$f")" && apalache-mc typecheck --out-dir="$d" "$(basename "$f")" >"$d/out.txt" 2>&1) || { echo "APALACHE TYPECHECK FAILED: $f"; tail -15 "$d/out.txt"; fail=1; }
    rm -rf "$d"
  done
fi
PYTHONDONTWRITEBYTECODE=1 /venv/bin/python -c "import sys; sys.path.insert(0,'.'); import harness.tlc, harness.common" || fail=1
[ -x /verif/harness/selfcheck.py ] && PYTHONDONTWRITEBYTECODE=1 /venv/bin/python /verif/harness/selfcheck.py || true
exit $fail
