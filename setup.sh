#!/bin/sh
# Offline setup: syntax-check every specification with SANY and make sure the harness imports.
set -e
cd "$(dirname "$0")"
fail=0
for f in $(find spec -name '*.tla' | sort); do
  out=$(cd "$(dirname "$f")" && java -cp /opt/veriftools/tla/tla2tools.jar:/opt/veriftools/tla/CommunityModules-deps.jar tla2sany.SANY "$(basename "$f")" 2>&1) || true
  if echo "$out" | grep -q -E "Fatal errors|\*\*\* Errors|Parse Error|Could not find module"; then
    echo "SANY FAILED: $f"; echo "$out" | tail -20; fail=1
  fi
done
PYTHONDONTWRITEBYTECODE=1 /venv/bin/python -c "import sys; sys.path.insert(0,'.'); import harness.tlc, harness.common" || fail=1
[ -x /verif/harness/selfcheck.py ] && PYTHONDONTWRITEBYTECODE=1 /venv/bin/python /verif/harness/selfcheck.py || true
exit $fail
